#!/venv/bin/python
"""Author-made mutation smoke test: small source edits (not checked against the test-suite) applied to a
scratch copy of /repo/src; the listed checks must report a VIOLATION.  Survivors are printed for review.

    tools/mutation_smoke.py [--only SUBSTR] [--jobs N]
"""
import argparse
import os
import shutil
import subprocess
import sys
import tempfile
from concurrent.futures import ThreadPoolExecutor

VERIF = os.path.dirname(os.path.dirname(os.path.abspath(__file__)))

# (name, file, old, new, checks)
M = [
    ("base_iadd_missed_dropped", "histogram_base.py", "                self._missed += other._missed\n", "                pass\n", "C05"),
    ("base_iadd_errors_not_added", "histogram_base.py", "                self.errors2 = self.errors2 + other.errors2\n                self._missed += other._missed", "                self.errors2 = self.errors2\n                self._missed += other._missed", "C05"),
    ("base_iadd_stats_not_added", "histogram_base.py", "                self._stats += other._stats\n", "                pass\n", "C05,C14"),
    ("base_has_same_bins_shape_only", "histogram_base.py", "            return np.allclose(self.bins, other.bins)\n", "            return True\n", "C05,C18"),
    ("base_imul_errors_linear", "histogram_base.py", "            self.errors2 = self.errors2 * scalar**2\n", "            self.errors2 = self.errors2 * scalar\n", "C06"),
    ("base_imul_missed_not_scaled", "histogram_base.py", "            self._missed = self._missed * scalar\n", "            pass\n", "C06"),
    ("base_idiv_errors_linear", "histogram_base.py", "            self.errors2 = self.errors2 / other**2\n", "            self.errors2 = self.errors2 / other\n", "C06"),
    ("base_normalize_percent_factor", "histogram_base.py", "        return self / self.total * (100 if percent else 1)", "        return self / self.total * (10 if percent else 1)", "C06"),
    ("base_copy_no_array_copy", "histogram_base.py", "            frequencies = np.copy(self.frequencies)\n", "            frequencies = self.frequencies\n", "C12,C06"),
    ("base_copy_shares_meta", "histogram_base.py", "        a_copy._meta_data = self._meta_data.copy()\n", "        a_copy._meta_data = self._meta_data\n", "C12"),
    ("base_copy_shares_binnings", "histogram_base.py", "        a_copy._binnings = [binning.copy() for binning in self._binnings]\n", "        a_copy._binnings = list(self._binnings)\n", "C12"),
    ("base_merge_mod", "histogram_base.py", "                bin_map = [(i, i // amount) for i in range(self.shape[axis])]", "                bin_map = [(i, i % amount) for i in range(self.shape[axis])]", "C10"),
    ("base_merge_errors_lost", "histogram_base.py", "                    new_errors2[tuple(new_index)] += old_errors2[tuple(old_index)]\n", "                    new_errors2[tuple(new_index)] = old_errors2[tuple(old_index)]\n", "C10,C16"),
    ("base_set_dtype_no_range_check", "histogram_base.py", "                if np.any((array > type_info.max) | (array < type_info.min)):", "                if False:", "C13"),
    ("base_set_dtype_no_integral_check", "histogram_base.py", "                        if np.any(array % 1.0):", "                        if False:", "C13,C18"),
    ("base_coerce_takes_other", "histogram_base.py", "            new_dtype = np.promote_types(self._dtype, other_dtype)\n", "            new_dtype = np.dtype(other_dtype)\n", "C13"),
    ("base_freq_setter_no_negative_check", "histogram_base.py", "        if np.any(frequencies < 0):\n            if config.free_arithmetics:", "        if False:\n            if config.free_arithmetics:", "C18,C19,C06"),
    ("base_isub_errors_subtracted", "histogram_base.py", "                self.errors2 = (adapted_self.errors2 + adapted_other.errors2).astype(", "                self.errors2 = abs(adapted_self.errors2 - adapted_other.errors2).astype(", "C13"),
    ("base_radd_returns_self", "histogram_base.py", "            return self.copy()\n        return self + other", "            return self\n        return self + other", "C12,C05"),
    ("h1_fill_errors_linear", "histogram1d.py", "            self._errors2[ixbin] += weight**2\n", "            self._errors2[ixbin] += weight\n", "C03"),
    ("h1_fill_stats_sum2", "histogram1d.py", "                    sum2=self.statistics.sum2 + weight * value**2,", "                    sum2=self.statistics.sum2 + weight**2 * value,", "C14"),
    ("h1_fill_min_max_swapped", "histogram1d.py", "                    min=min(self.statistics.min, value),\n                    max=max(self.statistics.max, value),", "                    min=max(self.statistics.min, value),\n                    max=min(self.statistics.max, value),", "C14"),
    ("h1_find_bin_last_edge_open", "histogram1d.py", "            if value <= self.bin_right_edges[-1]:", "            if value < self.bin_right_edges[-1]:", "C03"),
    ("h1_fill_n_underover_swapped", "histogram1d.py", "            self.underflow += underflow\n            self.overflow += overflow", "            self.underflow += overflow\n            self.overflow += underflow", "C03"),
    ("h1_getitem_underflow_off_by_one", "histogram1d.py", "                    underflow += self.frequencies[0 : index.start].sum()", "                    underflow += self.frequencies[0 : index.start + 1].sum()", "C11"),
    ("h1_getitem_overflow_dropped", "histogram1d.py", "                    overflow += self.frequencies[index.stop :].sum()", "                    pass", "C11"),
    ("h1_cumulative_from_errors", "histogram1d.py", "        return self._frequencies.cumsum()", "        return self._errors2.cumsum()", "C16"),
    ("h1_bin_centers_left", "histogram1d.py", "        return (self.bin_left_edges + self.bin_right_edges) / 2", "        return self.bin_left_edges + self.bin_widths / 3", "C16,C20"),
    ("nd_fill_errors_linear", "histogram_nd.py", "            self._errors2[ixbin] += weight**2\n", "            self._errors2[ixbin] += weight\n", "C03"),
    ("nd_fill_n_errors_forgotten", "histogram_nd.py", "        self._errors2 += errors2 if errors2 is not None else frequencies\n", "        self._errors2 += errors2 if errors2 is not None else 0\n", "C03"),
    ("nd_projection_errors_wrong_axes", "histogram_nd.py", "        errors2 = self.errors2.sum(axis=invert)", "        errors2 = self.errors2.sum(axis=axes)", "C09"),
    ("nd_T_errors_not_transposed", "histogram_nd.py", "            a_copy._errors2 = a_copy._errors2.T", "            pass", "C09"),
    ("nd_accumulate_wrong_axis", "histogram_nd.py", "        new_one._frequencies = np.cumsum(new_one.frequencies, axis_id)", "        new_one._frequencies = np.cumsum(new_one.frequencies, self.ndim - 1 - axis_id)", "C09"),
    ("nd_partial_normalize_axis_swap", "histogram_nd.py", "            if axis == 0:\n                divisor = np.atleast_1d(self._frequencies.sum(axis=0))", "            if axis == 1:\n                divisor = np.atleast_1d(self._frequencies.sum(axis=0))", "C06"),
    ("nd_select_axis_renumbering", "histogram_nd.py", "                    i + current.ndim - self.ndim, subindex, force_copy=False", "                    i, subindex, force_copy=False", "C11"),
    ("nd_bin_sizes_sum", "histogram_nd.py", "            sizes = np.multiply.outer(sizes, self.get_bin_widths(i))", "            sizes = np.add.outer(sizes, self.get_bin_widths(i))", "C16"),
    ("constr_nan_weights_not_masked", "_construction.py", "        weights_array = weights_array[array_mask]\n", "        weights_array = weights_array.flatten()[: int(array_mask.sum())]\n", "C01,C17"),
    ("constr_underflow_count", "_construction.py", "            underflow = weights_array[0:start].sum()", "            underflow = start", "C01"),
    ("constr_errors_square_of_sum", "_construction.py", "        errors2[xbin] = (weights_array[start:stop] ** 2).sum()", "        errors2[xbin] = weights_array[start:stop].sum() ** 2", "C01"),
    ("constr_nd_missing_from_counts", "_construction.py", "        missing = weights.sum() - frequencies.sum()", "        missing = data.shape[0] - frequencies.sum()", "C02"),
    ("constr_nd_errors_not_squared", "_construction.py", "        err_freq, _ = np.histogramdd(data, edges, weights=weights**2)", "        err_freq, _ = np.histogramdd(data, edges, weights=weights)", "C02"),
    ("bin_adapt_maps_swapped", "binnings.py", "        return bin_map1, bin_map2\n", "        return bin_map2, bin_map1\n", "C05"),
    ("bin_fw_copy_loses_shift", "binnings.py", "            bin_shift=self._shift,\n            includes_right_edge=self.includes_right_edge,\n            adaptive=self._adaptive,", "            includes_right_edge=self.includes_right_edge,\n            adaptive=self._adaptive,", "C07,C12"),
    ("bin_apply_map_right_edge_not_extended", "binnings.py", "                bins[new, 1] = self.bins[old, 1]\n", "                pass\n", "C10"),
    ("bin_mask_inf_always", "binnings.py", "        if not self.includes_right_edge:\n            edges = np.concatenate([edges, np.asarray([np.inf])])", "        if True:\n            edges = np.concatenate([edges, np.asarray([np.inf])])", "C02,C07"),
    ("bin_quantile_percent", "binnings.py", "        percentiles = np.asarray(q) * 100.0", "        percentiles = np.asarray(q) * 10.0", "C07"),
    ("bin_pretty_subscales", "_bin_utils.py", "    subscales = np.array([0.5, 1, 2, 2.5, 5, 10])", "    subscales = np.array([0.5, 1, 2, 3, 5, 10])", "C07"),
    ("bin_is_rising_allows_overlap", "_bin_utils.py", "    if np.any(bins[1:, 0] < bins[:-1, 1]):\n        return False", "    if False:\n        return False", "C07"),
    ("stats_add_min_max_swapped", "statistics.py", "            min=min(self.min, other.min),\n            max=max(self.max, other.max),", "            min=max(self.min, other.min),\n            max=min(self.max, other.max),", "C05,C14"),
    ("stats_variance_no_mean_term", "statistics.py", "            return (self.sum2 - self.sum**2 / self.weight) / self.weight", "            return self.sum2 / self.weight", "C14,C06"),
    ("special_polar_no_half", "special_histograms.py", "        sizes = 0.5 * (\n            self.get_bin_right_edges(0) ** 2 - self.get_bin_left_edges(0) ** 2\n        )\n        sizes = np.outer(sizes, self.get_bin_widths(1))", "        sizes = (\n            self.get_bin_right_edges(0) ** 2 - self.get_bin_left_edges(0) ** 2\n        )\n        sizes = np.outer(sizes, self.get_bin_widths(1))", "C16"),
    ("special_azimuthal_arctan_swapped", "special_histograms.py", "        return np.arctan2(value[..., 1], value[..., 0]) % (2 * np.pi)", "        return np.arctan2(value[..., 0], value[..., 1]) % (2 * np.pi)", "C15"),
    ("special_spherical_theta_no_guard", "special_histograms.py", "        result[..., 1] = np.arctan2(xy, z) % (2 * np.pi)\n        result[..., 2] = np.arctan2(y, x) % (2 * np.pi)", "        result[..., 1] = np.arctan2(xy, z) % (2 * np.pi)\n        result[..., 2] = np.arctan2(y, x)", "C15"),
    ("io_dtype_parsed_as_float", "histogram_base.py", "            \"dtype\": np.dtype(a_dict[\"dtype\"]),", "            \"dtype\": np.dtype(float),", "C08"),
    ("io_version_le", "io/version.py", "    if current_version < compatible_version:", "    if current_version <= compatible_version:", "C08"),
    ("config_default_env_any", "config.py", "os.environ.get(\"PHYST_FREE_ARITHMETICS\", \"0\") == \"1\"", "os.environ.get(\"PHYST_FREE_ARITHMETICS\", \"0\") != \"0\"", "C19"),
    ("collection_normalize_bins_modified_sums", "histogram_collection.py", "        sums = self.sum().frequencies\n        for h in col.histograms:", "        for h in col.histograms:\n            sums = col.sum().frequencies", "C06"),
    ("collection_add_no_binning_check", "histogram_collection.py", "        if self.binning and not self.binning == histogram.binning:", "        if False:", "C18"),
    ("pandas_series_name_ignored", "compat/pandas.py", "", "", ""),
]


def run_one(m, only=None):
    name, rel, old, new, checks = m
    if not checks or (only and only not in name):
        return None
    tmp = tempfile.mkdtemp(prefix="smoke-", dir="/var/tmp")
    try:
        src = os.path.join(tmp, "src")
        shutil.copytree("/repo/src", src, ignore=shutil.ignore_patterns("__pycache__"))
        p = os.path.join(src, "physt", rel)
        s = open(p).read()
        if s.count(old) != 1:
            return (name, "PATTERN-NOT-UNIQUE(%d)" % s.count(old), [])
        open(p, "w").write(s.replace(old, new))
        env = dict(os.environ, PHYST_VERIF_SRC=src, VERIF_SCRATCH=tmp, VERIF_JOBS="4")
        res = []
        for c in checks.split(","):
            r = subprocess.run(["/venv/bin/python", "-B", os.path.join(VERIF, "run.py"), c, "--tier", "quick"], env=env, capture_output=True, text=True)
            res.append((c, {0: "MISSED", 1: "DETECTED"}.get(r.returncode, f"HARNESS-ERROR({r.returncode})")))
        verdict = "ok" if any(v == "DETECTED" for _, v in res) and not any(v.startswith("HARNESS") for _, v in res) else "SURVIVED"
        return (name, verdict, res)
    finally:
        shutil.rmtree(tmp, ignore_errors=True)


def main():
    ap = argparse.ArgumentParser()
    ap.add_argument("--only")
    ap.add_argument("--jobs", type=int, default=4)
    a = ap.parse_args()
    with ThreadPoolExecutor(a.jobs) as ex:
        for r in ex.map(lambda m: run_one(m, a.only), M):
            if r:
                print(f"{r[1]:10s} {r[0]:45s} {r[2]}", flush=True)


if __name__ == "__main__":
    main()
