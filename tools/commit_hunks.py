#!/usr/bin/env python3
"""commit_hunks.py <message-file> <regex> [<regex> ...]: stage and commit every unstaged hunk in /repo whose text matches one of
the regexes (hunks are taken from `git diff -U1`)."""
import re, subprocess, sys
msg = open(sys.argv[1]).read()
pats = [re.compile(p, re.S) for p in sys.argv[2:]]
diff = subprocess.check_output(["git", "-C", "/repo", "diff", "-U1"]).decode()
files = re.split(r"(?m)^(?=diff --git )", diff)
out = []
n = 0
for f in files:
    if not f.strip():
        continue
    parts = re.split(r"(?m)^(?=@@ )", f)
    header, hunks = parts[0], parts[1:]
    sel = [h for h in hunks if any(p.search(h) for p in pats)]
    if sel:
        out.append(header + "".join(sel))
        n += len(sel)
if not out:
    sys.exit("no hunk matched")
patch = "".join(out)
p = subprocess.run(["git", "-C", "/repo", "apply", "--cached", "--recount", "-"], input=patch.encode())
if p.returncode:
    sys.exit("apply failed")
subprocess.check_call(["git", "-C", "/repo", "commit", "-q", "-m", msg])
print("committed", n, "hunks:", subprocess.check_output(["git", "-C", "/repo", "log", "--oneline", "-1"]).decode().strip())
