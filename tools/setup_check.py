#!/venv/bin/python
"""MANIFEST.setup_cmd: nothing to build (pure Python); verify interpreter, imports and source path."""
import os
import sys

sys.path.insert(0, os.path.dirname(os.path.dirname(os.path.abspath(__file__))))
from mc import env  # noqa: E402

env.setup(reexec=False)
import numpy  # noqa: E402
import physt  # noqa: E402

env.assert_physt_source()
for d in ("evidence", "replays"):
    os.makedirs(os.path.join(env.VERIF_ROOT, d), exist_ok=True)
print("setup ok: python", sys.version.split()[0], "numpy", numpy.__version__, "physt", physt.__version__, "from", os.path.dirname(physt.__file__))
