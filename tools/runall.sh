#!/bin/bash
# run every registered quick check once (optionally with VERIF_SEED) and print the summary lines
cd /verif
for c in $(python3 -c "import json;print(\" \".join(c[\"property_id\"] for c in json.load(open(\"MANIFEST.json\"))[\"checks\"]))"); do
  /venv/bin/python -B run.py $c --tier ${1:-quick} 2>&1 | grep -E "^(VIOLATION|C[0-9]+ tier|HARNESS|Traceback)" | cut -c1-260
done
