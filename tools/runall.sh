#!/bin/bash
# run every registered quick check once (optionally with VERIF_SEED) and print the summary lines
cd /verif
for c in $(ls checks | grep -E '^c[0-9]+\.py$' | sed 's/\.py//' | tr a-z A-Z); do
  /venv/bin/python -B run.py $c --tier ${1:-quick} 2>&1 | grep -E "^(VIOLATION|C[0-9]+ tier|HARNESS|Traceback)" | cut -c1-260
done
