#!/bin/bash
# tools/selftest_all.sh [jobs] [seeds]: re-confirm EVERY kept mutant (seeded/*, mutants/*) against the current checks:
# the demo discriminates and each check named in meta.json reports a VIOLATION (mutants whose meta.json says obsolete_since - a
# repair made the patched code harmless - are skipped). Prints one line per (mutant, check, seed).
cd /verif
jobs=${1:-3}; seeds=${2:-0}
ls -d seeded/*/ mutants/*/ 2>/dev/null | while read d; do
  [ -f "$d/patch.diff" ] && ! grep -q obsolete_since "$d/meta.json" && echo "$d"
done | xargs -P "$jobs" -I{} sh -c '/venv/bin/python -B tools/selftest.py {}patch.diff --seeds '"$seeds"' 2>&1 | grep -E "check C|DISCRIMINATE|HARNESS" | cut -c1-160'
