#!/venv/bin/python
"""Regenerate /verif/MANIFEST.json from the table below (only for checks whose module exists)."""
import json
import os
import subprocess

VERIF = os.path.dirname(os.path.dirname(os.path.abspath(__file__)))
PY = "/venv/bin/python -B /verif/run.py"

E1 = "E1 product enumerator"
E2 = "E2 history explorer"
E3 = "E3 schedule explorer"

META = {
    "C01": ("exploration", E1, "4 C01",
            "Exhaustive enumeration, on the real h1, of every ordered data tuple up to length L over an edge alphabet that has a representative (and both ulp neighbours) of every order-equivalence class of the real line w.r.t. the bin edges, x bin-set family x bin forms x weight modes x dtype/keep_missed/dropna/container; every result is compared bit-exactly with an entry-list reference model.",
            "Trusted: numpy comparison/sorting, the reference model (40 lines, no numpy). Bounds: L<=3 (quick) / 4-5 (thorough), 8(+3 seeded) bin sets.",
            "bounded exhaustive input enumeration vs reference model"),
    "C02": ("exploration", E1, "4 C02",
            "Exhaustive enumeration of row tuples over the per-axis edge alphabets for 2D-4D histograms with asymmetric shapes, gapped / right-inclusive axes, weight modes and entry forms (h, h2, h3 row- and column-wise), compared bit-exactly with the ND entry-list model.",
            "Trusted: numpy.histogramdd as executed by physt is part of the code under test, not of the oracle. Bounds: rows<=2-3, d<=4.",
            "bounded exhaustive input enumeration vs reference model"),
    "C03": ("model_checking", E2, "4 C03",
            "Explicit-state exploration of fill / fill_n / << histories on live histograms: state = multiset of entries; every transition is checked against the entry-list model and against batch construction, every second path to a state must reproduce its snapshot (confluence = any chunking, any order); DFS without merging validates the abstraction. A second, product-enumerated unit holds the history fixed and varies what the histories hold fixed: ten numeric types of the weights x five entry paths x 1D/2D/3D, NaN asked of find_bin, tracking switched off through every constructor, contents and squared errors assigned from one array.",
            "Trusted: state abstraction (multiset of entries) - validated by the path-exhaustive DFS. Bounds: multisets<=3 (quick) / 4-5 (thorough), batches<=2-3.",
            "explicit-state BFS over operation histories with confluence oracle"),
    "C04": ("model_checking", E2, "4 C04",
            "Explicit-state exploration of fill / fill_n histories on adaptive fixed-width histograms over widths incl. non-dyadic ones, exact multiples, decimal literals, ulp neighbours and far values; oracle: nothing lost, grid edges, exact span, contents attached to intervals, equality with a fixed-bin histogram, confluence over fill orders.",
            "Trusted: double arithmetic of the grid formula k*w+shift as the definition of the grid. Bounds: multisets<=2-3 over ~80 values per width, 10 widths, dims 1-3.",
            "explicit-state BFS over fill histories with reference model and confluence"),
    "C05": ("model_checking", E2, "4 C05",
            "All ordered pairs/triples of small data sets, all set partitions x permutations x parenthesisations of a data set, sum()/collection.sum()/+=/radd, adaptive grid unions, all dask chunkings x chunk-task orders; oracle: h(A)+h(B)==h(A u B), commutativity/associativity (confluence), operands untouched, refusals.",
            "Trusted: construction (C01/C02) as the reference for the union. Bounds: data sets<=2-3 entries, partitions of <=4 entries, dask n<=6.",
            "exhaustive enumeration of operand tuples / partitions / task orders with differential oracle"),
    "C06": ("model_checking", E2, "4 C06",
            "Chains of scalings (state = exact rational factor) on 1D/2D/3D histograms with missed values, custom errors and statistics, all scalar types, in-place and copying variants, normalize / partial_normalize / collection normalisation; oracle: exact linearity, commutation, inverse, dtype kind, statistics invariance, refusals.",
            "Trusted: rational arithmetic of the model. Bounds: chains<=3 (quick)/4, scalar alphabet of DESIGN 3.2.",
            "exhaustive enumeration of scaling chains vs exact rational model"),
    "C07": ("exploration", E1, "4 C07",
            "Exhaustive enumeration of small integer data tuples mapped over 15 decades x offsets x every binning request, all edge arrays over {0..3} / pair arrays over {0..4}, constructor grids; oracle: well-formedness, coverage, the schema's rule (numpy edges, textbook bin counts, pretty widths, quantiles, geometric ratios), agreement of all representations.",
            "Trusted: numpy.histogram_bin_edges as the statement's reference for numpy-style arguments. Bounds: tuples<=4 over {0..5}.",
            "bounded exhaustive input enumeration vs rule oracles"),
    "C08": ("exploration", E1, "4 C08",
            "Cartesian product of histogram class x binning class x dtype x missed x keep_missed x errors x metadata x path (string / file); oracle: class, ==, field-by-field bit identity, second serialisation identical, version gate.",
            "Trusted: json module. Bounds: the product described in DESIGN 4 C08.",
            "exhaustive configuration product with round-trip oracle"),
    "C09": ("exploration", E1, "4 C09",
            "All non-empty proper axis subsets (by index, name, mixed, any order) and all projection chains of fingerprinted 2D-4D histograms; T, accumulate, invalid axis lists; oracle: plain-loop marginals, chain == direct, data-driven equality with direct construction.",
            "Trusted: fingerprint contents identify the summed cells. Bounds: d<=4, shapes <= (2,3,1,2).",
            "exhaustive enumeration of axis subsets and chains vs plain-loop marginals"),
    "C10": ("exploration", E1, "4 C10",
            "All histograms of 1..6 bins per axis (1D-3D, irregular, gapped) x every amount x axis x inplace x every min_frequency threshold; oracle: run sums of fingerprints, boundaries, totals, original untouched, refusals.",
            "Trusted: fingerprints. Bounds: <=6 bins per axis, d<=3.",
            "exhaustive enumeration of merge requests vs run-sum model"),
    "C11": ("exploration", E1, "4 C11",
            "Every index expression on 1D histograms of 1..5 bins (ints, all slices, all masks, all index arrays, tuples) and every tuple of ints/slices on 2D-4D histograms, select(); oracle: numpy indexing of bins/contents/errors, under/overflow bookkeeping, refusals, source untouched.",
            "Trusted: numpy indexing as the reference semantics. Bounds: n<=5 bins, d<=4.",
            "exhaustive enumeration of index expressions vs numpy semantics"),
    "C12": ("model_checking", E2, "4 C12",
            "Explicit-state exploration of histories (<=2-3 derivations then <=2-3 mutations, every choice of targets) over a pool of live objects; frame-condition oracle: a mutation of one member leaves every other member's public snapshot bit-identical and everything well-formed.",
            "Trusted: public snapshot covers every observable field. Bounds: pool<=3, histories<=2+2 (quick) / 3+3.",
            "exhaustive enumeration of derivation/mutation histories with frame-condition oracle"),
    "C13": ("model_checking", E2, "4 C13",
            "Explicit-state exploration of operation histories over all supported dtypes; state = (dtype, exact contents); oracle: reported dtype == element types, kind rules, numpy promotion, lossless values, set_dtype acceptance rule, refusal leaves everything unchanged.",
            "Trusted: np.promote_types as the statement's reference. Bounds: depth<=3 (quick) / 4.",
            "explicit-state BFS over operation histories vs exact rational model"),
    "C14": ("model_checking", E2, "4 C14",
            "Explicit-state exploration of construction / fill / fill_n / add / copy / scale histories on dyadic in-range values; state = multiset of entries + scale; oracle: exact sums, min/max, moments in rationals, confluence over chunkings, NaN after invalidating operations.",
            "Trusted: dyadic values make double sums exact. Bounds: multisets<=4 (quick) / 6.",
            "explicit-state BFS over histories vs exact rational statistics"),
    "C15": ("model_checking", E2, "4 C15",
            "All points of a grid covering every quadrant/octant, the axes, the origin and signed zeros x seven special classes x every entry path (facade, transform, fill, fill_n, find_bin, transformed or not) and short fill histories; oracle: math-module coordinate formulas, all paths agree (confluence), projections' classes and contents, refusals.",
            "Trusted: math.atan2/hypot as reference. Bounds: 64 2D / 125 3D points, multisets<=2.",
            "exhaustive enumeration of points x entry paths with confluence oracle"),
    "C16": ("exploration", E1, "4 C16",
            "Every histogram class x bin-set family x fingerprint contents x all adjacent merges; oracle: closed-form bin measures (math module), densities*sizes == frequencies, additivity, totals of full ranges, consistency of edge/centre/width accessors, cumulative sums.",
            "Trusted: closed-form geometry formulas of the statement. Bounds: <=4 bins per axis.",
            "exhaustive configuration product vs closed-form geometry"),
    "C17": ("exploration", E1, "4 C17",
            "Data tuples over the edge alphabet (+NaN) x weights x dropna x every container (list, tuple, iterator, ndarray, pandas, polars, accessors, dask in every chunking x every chunk-task order) and conversions; oracle: snapshot equality with the histogram of the equivalent ndarray, naming rule, refusals, round trips.",
            "Trusted: pandas/polars/dask conversion to numpy as observation channel. Bounds: tuples<=3-4, dask n<=6.",
            "exhaustive enumeration of containers/chunkings/task orders with differential oracle"),
    "C18": ("model_checking", E2, "4 C18",
            "Explicit-state exploration of histories of valid operations with invalid calls injected at every position (deviation bound 1 quick / 2 thorough); oracle: well-formedness after every step, a refused call leaves the interval->content map, errors, missed counts and statistics exactly as before, histogram remains usable.",
            "Trusted: classification of alphabet operations into valid/invalid by the model. Bounds: depth 4, deviations<=1-2.",
            "deviation-bounded fault-injection exploration of operation histories"),
    "C19": ("model_checking", E3, "4 C19",
            "All well-nested enable/disable/set/raise programs up to a length bound; all interleavings of 2-3 real threads (op level exhaustively, line level with preemption bound 0..2 under a sys.settrace baton scheduler) and all ready-queue orders of 2-3 asyncio tasks on a virtual event loop; oracle: per-context stack model and per-thread sequential consistency; every schedule replayed twice.",
            "Trusted: cooperative baton scheduler models preemption at line granularity of config.py / histogram_base.py; no-GIL builds and C-level switches are out of scope.",
            "stateless exhaustive schedule exploration (iterative context bounding) on the real code"),
    "C20": ("exploration", E1, "4 C20",
            "Product of histograms x plot kinds x density/cumulative/errors/show_values/show_zero/ticks options x backends (matplotlib artists, plotly traces, ASCII stdout) and the time-tick helper over level x range grids; oracle: positions/heights/error spans/colours/labels read back from the artists, histogram snapshot unchanged, refusals.",
            "Trusted: matplotlib/plotly artist attributes as observation channel. Bounds: the option product of DESIGN 4 C20.",
            "exhaustive option product with artist read-back oracle"),
}


# checks that are finished and triaged (a half-built checks/cNN.py of a builder agent is not registered)
READY = {"C01", "C02", "C03", "C04", "C05", "C06", "C07", "C08", "C09", "C10", "C11", "C12", "C13", "C14", "C15", "C16", "C17", "C18", "C19", "C20"}


def main():
    props = [json.loads(l) for l in open(os.path.join(VERIF, "properties.jsonl"))]
    checks = []
    na = []
    served = {E1: [], E2: [], E3: []}
    for p in props:
        pid = p["id"]
        level, engine, ref, text, note, tech = META[pid]
        if pid in READY and os.path.exists(os.path.join(VERIF, "checks", pid.lower() + ".py")):
            served[engine].append(pid)
            checks.append({
                "property_id": pid,
                "quick_cmd": f"{PY} {pid} --tier quick",
                "thorough_cmd": f"{PY} {pid} --tier thorough",
                "evidence_file": f"/verif/evidence/{pid}.json",
                "replay_cmd_template": f"{PY} {pid} --replay {{path}}",
                "engine": engine,
                "level_claimed": {"category": level, "text": text, "design_ref": "DESIGN.md section " + ref},
                "level_note": note,
                "technique": "model checking: " + tech,
            })
        else:
            na.append({"property_id": pid, "reason": "check not built yet in this revision of /verif (planned, see DESIGN.md section " + ref + ")"})
    baseline = json.load(open("/root/.vp/BASELINE.json"))["cmd"]
    manifest = {
        "version": 1,
        "setup_cmd": "/venv/bin/python -B /verif/tools/setup_check.py",
        "hooks": {
            "guard": "PHYST_VERIF",
            "enable": "no source hooks are needed: checks import physt from /repo/src (PHYST_VERIF_SRC overrides) in a fresh process, PHYST_VERIF=1 is exported but nothing in physt reads it",
            "baseline_off_cmd": baseline.replace("--junitxml=<file>", "--junitxml=/var/tmp/physt_baseline.junit.xml"),
            "source_commits": [],
            "add_only": True,
        },
        "engines": [
            {"name": E1, "path": "/verif/mc/core.py", "serves_properties": served[E1],
             "kind_free_text": "bounded exhaustive enumeration of Cartesian products of small finite input/configuration domains on the real code, compared with an entry-list reference model"},
            {"name": E2, "path": "/verif/mc/histories.py", "serves_properties": served[E2],
             "kind_free_text": "explicit-state BFS over operation histories on live objects with model-state keys, confluence oracle, DFS validation, deviation-bounded fault injection"},
            {"name": E3, "path": "/verif/mc/sched_threads.py", "serves_properties": served[E3],
             "kind_free_text": "stateless exhaustive exploration of thread interleavings (baton scheduler, sys.settrace line points, preemption bound), asyncio ready-queue orders on a virtual loop, dask chunk-task orders"},
        ],
        "checks": checks,
        "notes": "All checks: /venv/bin/python -B /verif/run.py <ID> --tier quick|thorough; exit 0/1/2 = held / violation / harness error. Known findings: /verif/known_findings.json. See DESIGN.md.",
        "not_applicable": na,
    }
    with open(os.path.join(VERIF, "MANIFEST.json"), "w") as f:
        json.dump(manifest, f, indent=1)
        f.write("\n")
    # validate
    code = (
        "import json, jsonschema; "
        "jsonschema.validate(json.load(open('/verif/MANIFEST.json')), json.load(open('/root/.vp/MANIFEST.schema.json'))); "
        "print('MANIFEST valid:', len(json.load(open('/verif/MANIFEST.json'))['checks']), 'checks')"
    )
    subprocess.run(["python3-vt", "-c", code], check=True)


if __name__ == "__main__":
    main()
