#!/venv/bin/python
"""Entry point of every registered check.

    /venv/bin/python -B /verif/run.py <ID> [--tier quick|thorough] [--replay PATH] [--list-signatures]

Exit 0: property held on everything explored (KNOWN-FINDING lines may be printed);
exit 1: at least one `VIOLATION property=<ID> replay=<path>` line; exit 2: harness error.
VERIF_SEED / VERIF_TIER are honoured.
"""
import os
import sys

sys.path.insert(0, os.path.dirname(os.path.abspath(__file__)))
from mc import env  # noqa: E402

env.setup()

import argparse  # noqa: E402


def main():
    ap = argparse.ArgumentParser()
    ap.add_argument("check")
    ap.add_argument("--tier", default=os.environ.get("VERIF_TIER", "quick"), choices=["quick", "thorough"])
    ap.add_argument("--seed", type=int, default=None)
    ap.add_argument("--replay")
    ap.add_argument("--list-signatures", action="store_true")
    ap.add_argument("--jobs", type=int, default=None)
    ap.add_argument("--budget", type=float, default=None)
    a = ap.parse_args()
    seed = a.seed
    if seed is None:
        try:
            seed = int(os.environ.get("VERIF_SEED", "0"))
        except ValueError:
            seed = 0
    from mc import core

    cid = a.check.upper()
    try:
        if a.replay:
            return core.run_replay(cid, a.replay)
        return core.run_check(cid, a.tier, seed, list_signatures=a.list_signatures, jobs=a.jobs, budget=a.budget)
    except core.HarnessError as e:
        sys.stderr.write(f"HARNESS ERROR: {e}\n")
        return 2


if __name__ == "__main__":
    try:
        rc = main()
    except SystemExit:
        raise
    except BaseException:  # noqa: BLE001
        import traceback

        traceback.print_exc()
        rc = 2
    sys.exit(rc)
